"""Path-partitioned abstract interpretation of pure 64-bit arithmetic functions (family AI,
DESIGN.md 2.2 / C12).

Abstract value of an i64 SSA value on one path:
   [lo, hi]  interval of the *signed machine* value
   k         the "math offset": math = machine_signed + k * 2^64, where math is the value the
             expression denotes over the integers (None once a non-linear / bit operation broke
             the chain)
   lin       linear form {atom: coef, 1: const} of the math value over input atoms (None: unknown)

The interpretation never joins: branches, selects, wrap-around of add/sub and sign/bit-region
tests fork the state, so every reported fact is per path.  No solver is involved: obligations
are decided by interval entailment only; what cannot be decided is UNKNOWN, never a verdict.
"""
from .build import AnalysisBroken

B64 = 1 << 64
SMIN = -(1 << 63)
SMAX = (1 << 63) - 1


def s64(u):
    u &= B64 - 1
    return u - B64 if u >> 63 else u


class AV:
    __slots__ = ("lo", "hi", "k", "lin")

    def __init__(self, lo, hi, k=0, lin=None):
        self.lo, self.hi, self.k, self.lin = lo, hi, k, lin

    def copy(self):
        return AV(self.lo, self.hi, self.k, dict(self.lin) if self.lin is not None else None)

    def const(self):
        return self.lo if self.lo == self.hi else None

    def math(self):
        if self.k is None:
            return None
        return (self.lo + self.k * B64, self.hi + self.k * B64)

    def __repr__(self):
        return "AV[%d,%d k=%s lin=%s]" % (self.lo, self.hi, self.k, fmt_lin(self.lin))


def fmt_lin(lin):
    if lin is None:
        return "?"
    parts = []
    for a, c in sorted(lin.items(), key=lambda x: str(x[0])):
        if c == 0:
            continue
        if a == 1:
            parts.append(str(c))
        else:
            parts.append(("%d*" % c if c != 1 else "") + (a if isinstance(a, str) else ":".join(map(str, a))))
    return " + ".join(parts) or "0"


def lin_add(a, b, sign=1):
    if a is None or b is None:
        return None
    r = dict(a)
    for k, c in b.items():
        r[k] = r.get(k, 0) + sign * c
        if r[k] == 0:
            del r[k]
    return r


def lin_scale(a, c):
    if a is None:
        return None
    return {k: v * c for k, v in a.items() if v * c != 0}


def lin_eq(a, b):
    if a is None or b is None:
        return False
    ka = {k: v for k, v in a.items() if v}
    kb = {k: v for k, v in b.items() if v}
    return ka == kb


def cav(c):
    c = s64(c)
    return AV(c, c, 0, {1: c} if c else {})


class State:
    __slots__ = ("env", "alias", "facts", "conds", "null", "trace", "ncalls", "splits", "defs")

    def __init__(self):
        self.env = {}      # key -> AV
        self.alias = {}    # inst id -> operand
        self.facts = set() # relational facts ('ult'|'ule', keyA, keyB) on unsigned views
        self.conds = {}    # inst id -> condition tree
        self.null = {}     # arg index -> True (null) / False (non-null)
        self.trace = []    # block ids
        self.ncalls = {}
        self.splits = []
        self.defs = {}     # key -> (sign, keyA, keyB, wrap) for add/sub results, (0, keyX, shift, None) for shifted copies

    def fork(self):
        s = State()
        s.env = {k: v.copy() for k, v in self.env.items()}
        s.alias = dict(self.alias)
        s.facts = set(self.facts)
        s.conds = dict(self.conds)
        s.null = dict(self.null)
        s.trace = list(self.trace)
        s.ncalls = dict(self.ncalls)
        s.splits = list(self.splits)
        s.defs = dict(self.defs)
        return s


class Interp:
    def __init__(self, fn, atoms, loads=None, calls=None, max_states=20000):
        """atoms: {arg index: (name, lo, hi)} for integer args; loads: {field: (lo, hi)};
        calls: {callee: (lo, hi)} assumed result ranges"""
        self.fn = fn
        self.atoms = atoms
        self.loads = loads or {}
        self.calls = calls or {}
        self.max_states = max_states
        self.nstates = 0
        self.returns = []
        self.events = []      # (call inst, state snapshot) for every call executed on some path

    # ------------------------------------------------------------ keys
    def key(self, st, op):
        while op[0] == "i" and op[1] in st.alias:
            op = st.alias[op[1]]
        return tuple(op[:2]) if op[0] in ("i", "a") else tuple(op)

    def val(self, st, op):
        k = self.key(st, op)
        if k[0] == "c":
            return cav(k[1])
        if k[0] == "n":
            return AV(0, 0, 0, {})
        v = st.env.get(k)
        if v is None:
            if k[0] == "a" and k[1] in self.atoms:
                name, lo, hi = self.atoms[k[1]]
                v = AV(lo, hi, 0, {name: 1})
            else:
                v = AV(SMIN, SMAX, None, None)
            st.env[k] = v
        return v

    # ------------------------------------------------------------ refinement
    def refine_range(self, st, key, lo, hi):
        """intersect env[key] with signed interval; returns state or None"""
        if key[0] in ("c", "n"):
            c = s64(key[1]) if key[0] == "c" else 0
            return st if lo <= c <= hi else None
        v = st.env.get(key)
        if v is None:
            v = self.val(st, list(key))
        nlo, nhi = max(v.lo, lo), min(v.hi, hi)
        if nlo > nhi:
            return None
        changed = (nlo, nhi) != (v.lo, v.hi)
        v.lo, v.hi = nlo, nhi
        if changed and not self.propagate(st, key):
            return None
        return st

    def propagate(self, st, key):
        """re-evaluate values derived from `key` (they may have been computed before the guard that
        refined it: simplifycfg speculates arithmetic above selects); False if a value becomes empty"""
        work = [key]
        while work:
            k0 = work.pop()
            for dk, d in list(st.defs.items()):
                sign, ka, kb, w = d
                if k0 != ka and k0 != kb:
                    continue
                v = st.env.get(dk)
                if v is None:
                    continue
                if sign == 0:
                    a = self.val(st, list(ka))
                    lo, hi = a.lo + kb, a.hi + kb
                else:
                    a, b = self.val(st, list(ka)), self.val(st, list(kb))
                    lo, hi = self.addsub_range(st, sign, ka, kb, a, b)
                    if w is None:
                        continue
                    lo, hi = max(lo, SMIN + w * B64) - w * B64, min(hi, SMAX + w * B64) - w * B64
                nlo, nhi = max(v.lo, lo), min(v.hi, hi)
                if nlo > nhi:
                    return False
                if (nlo, nhi) != (v.lo, v.hi):
                    v.lo, v.hi = nlo, nhi
                    work.append(dk)
        return True

    def addsub_range(self, st, sign, ka, kb, a, b):
        if sign > 0:
            return a.lo + b.lo, a.hi + b.hi
        lo, hi = a.lo - b.hi, a.hi - b.lo
        # relational facts: b <u a  (both non-negative) => a - b >= 1
        if a.lo >= 0 and b.lo >= 0:
            if ("ult", kb, ka) in st.facts:
                lo = max(lo, 1)
            elif ("ule", kb, ka) in st.facts:
                lo = max(lo, 0)
        return lo, hi

    def refine_cmp(self, st, pred, a, b, truth):
        """a, b operands. returns list of states"""
        ka, kb = self.key(st, a), self.key(st, b)
        if ka[0] in ("c", "n") and kb[0] not in ("c", "n"):
            swap = {"eq": "eq", "ne": "ne", "slt": "sgt", "sle": "sge", "sgt": "slt", "sge": "sle",
                    "ult": "ugt", "ule": "uge", "ugt": "ult", "uge": "ule"}
            return self.refine_cmp(st, swap[pred], b, a, truth)
        if not truth:
            neg = {"eq": "ne", "ne": "eq", "slt": "sge", "sle": "sgt", "sgt": "sle", "sge": "slt",
                   "ult": "uge", "ule": "ugt", "ugt": "ule", "uge": "ult"}
            return self.refine_cmp(st, neg[pred], a, b, True)
        # pointer null tests on arguments
        if ka[0] == "a" and kb[0] == "n":
            isnull = st.null.get(ka[1])
            want = (pred == "eq")
            if isnull is None:
                st.null[ka[1]] = want
                return [st]
            return [st] if isnull == want else []
        if kb[0] in ("c", "n"):
            c = s64(kb[1]) if kb[0] == "c" else 0
            cu = c & (B64 - 1)
            if pred == "eq":
                r = self.refine_range(st, ka, c, c)
                return [r] if r else []
            if pred == "ne":
                v = self.val(st, a)
                if v.lo == v.hi == c:
                    return []
                if v.lo == c:
                    v.lo += 1
                elif v.hi == c:
                    v.hi -= 1
                elif v.lo < c < v.hi:
                    s2 = st.fork()
                    r1 = self.refine_range(st, ka, SMIN, c - 1)
                    r2 = self.refine_range(s2, ka, c + 1, SMAX)
                    return [x for x in (r1, r2) if x]
                return [st]
            if pred in ("slt", "sle", "sgt", "sge"):
                lo, hi = {"slt": (SMIN, c - 1), "sle": (SMIN, c), "sgt": (c + 1, SMAX), "sge": (c, SMAX)}[pred]
                if lo > hi:
                    return []
                r = self.refine_range(st, ka, lo, hi)
                return [r] if r else []
            # unsigned: set of x with x_u in [ulo, uhi]
            ulo, uhi = {"ult": (0, cu - 1), "ule": (0, cu), "ugt": (cu + 1, B64 - 1), "uge": (cu, B64 - 1)}[pred]
            if ulo > uhi:
                return []
            out = []
            # unsigned [ulo,uhi] -> signed pieces
            pieces = []
            if ulo <= SMAX:
                pieces.append((ulo, min(uhi, SMAX)))
            if uhi > SMAX:
                pieces.append((max(ulo, SMAX + 1) - B64, uhi - B64))
            for n, (lo, hi) in enumerate(pieces):
                s2 = st.fork() if n < len(pieces) - 1 else st
                r = self.refine_range(s2, ka, lo, hi)
                if r:
                    out.append(r)
            return out
        # two symbolic values: record a relational fact on the unsigned views
        fact = {"ult": ("ult", ka, kb), "ule": ("ule", ka, kb), "ugt": ("ult", kb, ka), "uge": ("ule", kb, ka)}.get(pred)
        if fact:
            x, y = self.val(st, list(fact[1])), self.val(st, list(fact[2]))
            if x.lo >= 0 and y.lo >= 0:
                if fact[0] == "ult" and x.lo >= y.hi:
                    return []
                if fact[0] == "ule" and x.lo > y.hi:
                    return []
            st.facts.add(fact)
            for kk in (fact[1], fact[2]):
                if kk[0] in ("i", "a") and not self.propagate(st, kk):
                    return []
        elif pred == "eq":
            st.facts.add(("eq", ka, kb))
        return [st]

    def refine_cond(self, st, op, truth):
        """op: operand holding an i1; returns list of states where it has the given truth"""
        k = self.key(st, op)
        if k[0] == "c":
            return [st] if bool(k[1]) == truth else []
        if k[0] != "i":
            return [st]
        c = st.conds.get(k[1])
        if c is None:
            return [st]
        if c[0] == "icmp":
            return self.refine_cmp(st, c[1], c[2], c[3], truth)
        if c[0] == "not":
            return self.refine_cond(st, c[1], not truth)
        if c[0] in ("or", "and"):
            disj = (c[0] == "or") == truth      # or-true / and-false are disjunctions
            if not disj:
                out = []
                for s1 in self.refine_cond(st, c[1], truth):
                    out.extend(self.refine_cond(s1, c[2], truth))
                return out
            out = []
            s2 = st.fork()
            out.extend(self.refine_cond(st, c[1], truth))
            for s3 in self.refine_cond(s2, c[1], not truth):
                out.extend(self.refine_cond(s3, c[2], truth))
            return out
        return [st]

    # ------------------------------------------------------------ splitting helpers
    def split_regions(self, st, op, bounds):
        """fork so that the value of op lies within one of the signed regions delimited by bounds"""
        k = self.key(st, op)
        if k[0] in ("c", "n"):
            return [st]
        v = self.val(st, op)
        cuts = [b for b in bounds if v.lo < b <= v.hi]
        if not cuts:
            return [st]
        out = []
        edges = [v.lo] + cuts + [v.hi + 1]
        for n in range(len(edges) - 1):
            s2 = st.fork()
            r = self.refine_range(s2, k, edges[n], edges[n + 1] - 1)
            if r:
                out.append(r)
        return out

    # ------------------------------------------------------------ transfer
    def addsub(self, st, i, sign):
        a, b = self.val(st, i.ops[0]), self.val(st, i.ops[1])
        ka, kb = self.key(st, i.ops[0]), self.key(st, i.ops[1])
        lo, hi = self.addsub_range(st, sign, ka, kb, a, b)
        k = None if (a.k is None or b.k is None) else (a.k + sign * b.k)
        lin = lin_add(a.lin, b.lin, sign)
        out = []
        cases = []
        for w in (-1, 0, 1):
            wl, wh = max(lo, SMIN + w * B64), min(hi, SMAX + w * B64)
            if wl <= wh:
                cases.append((w, wl - w * B64, wh - w * B64))
        if lo < SMIN - B64 or hi > SMAX + B64:
            cases = [(None, SMIN, SMAX)]
        for n, (w, l, h) in enumerate(cases):
            s2 = st.fork() if n < len(cases) - 1 else st
            s2.env[("i", i.id)] = AV(l, h, None if (k is None or w is None) else k + w, dict(lin) if lin is not None else None)
            s2.defs[("i", i.id)] = (sign, ka, kb, w)
            if len(cases) > 1:
                s2.splits.append("%%%d wrap=%s" % (i.id, w))
            out.append(s2)
        return out

    def step(self, st, i):
        """execute non-terminator instruction i; returns list of successor states"""
        op = i.op
        key = ("i", i.id)
        if op == "icmp":
            st.conds[i.id] = ("icmp", i.d["pred"], i.ops[0], i.ops[1])
            return [st]
        if op in ("or", "and", "xor") and i.d.get("w") == 1:
            if op == "xor":
                st.conds[i.id] = ("not", i.ops[0])
            else:
                st.conds[i.id] = (op, i.ops[0], i.ops[1])
            return [st]
        if op == "add":
            return self.addsub(st, i, 1)
        if op == "sub":
            return self.addsub(st, i, -1)
        if op == "mul":
            a, b = self.val(st, i.ops[0]), self.val(st, i.ops[1])
            c = b.const()
            if c is None:
                a, b = b, a
                c = b.const()
            if c is not None and c >= 0:
                lo, hi = a.lo * c, a.hi * c
                if SMIN <= lo and hi <= SMAX:
                    st.env[key] = AV(lo, hi, a.k * c if a.k == 0 else None, lin_scale(a.lin, c))
                    return [st]
            st.env[key] = AV(SMIN, SMAX, None, None)
            return [st]
        if op in ("and", "or"):
            x, m = i.ops[0], i.ops[1]
            mk = self.key(st, m)
            if mk[0] != "c":
                x, m = m, x
                mk = self.key(st, m)
            if mk[0] == "c":
                mask = mk[1] & (B64 - 1)
                if op == "and" and mask == (1 << 63) - 1:
                    out = []
                    for s2 in self.split_regions(st, x, [0]):
                        v = self.val(s2, x)
                        if v.hi < 0:
                            s2.env[key] = AV(v.lo + (1 << 63), v.hi + (1 << 63), v.k, lin_add(v.lin, {1: 1 << 63}))
                            s2.defs[key] = (0, self.key(s2, x), 1 << 63, None)
                        else:
                            s2.alias[i.id] = x
                        out.append(s2)
                    return out
                if op == "and" and mask in (1 << 62, 1 << 63, (1 << 62) | (1 << 63)):
                    out = []
                    for s2 in self.split_regions(st, x, [-(1 << 62), 0, 1 << 62]):
                        v = self.val(s2, x)
                        top = ((v.lo & (B64 - 1)) & mask)
                        s2.env[key] = cav(top)
                        out.append(s2)
                    return out
                if op == "or" and mask == 1 << 63:
                    out = []
                    for s2 in self.split_regions(st, x, [0]):
                        v = self.val(s2, x)
                        if v.lo >= 0:
                            s2.env[key] = AV(v.lo - (1 << 63), v.hi - (1 << 63), v.k, lin_add(v.lin, {1: -(1 << 63)}))
                            s2.defs[key] = (0, self.key(s2, x), -(1 << 63), None)
                        else:
                            s2.alias[i.id] = x
                        out.append(s2)
                    return out
                if op == "and" and s64(mask) >= 0:
                    st.env[key] = AV(0, s64(mask), None, None)
                    return [st]
            st.env[key] = AV(SMIN, SMAX, None, None)
            return [st]
        if op == "select":
            out = []
            s2 = st.fork()
            for s in self.refine_cond(st, i.ops[0], True):
                s.alias[i.id] = i.ops[1]
                out.append(s)
            for s in self.refine_cond(s2, i.ops[0], False):
                s.alias[i.id] = i.ops[2]
                out.append(s)
            return out
        if op in ("zext", "sext", "bitcast"):
            src = i.ops[0]
            if i.d.get("sty") == "i1":
                st.env[key] = AV(0, 1, None, None)
            else:
                st.alias[i.id] = list(self.key(st, src))
            return [st]
        if op == "call" and (i.callee or "").startswith(("llvm.sadd.with.overflow.i64", "llvm.ssub.with.overflow.i64")):
            sign = 1 if "sadd" in i.callee else -1
            out = self.addsub(st, i, sign)
            for s2 in out:
                w = s2.defs[key][3]
                s2.conds[i.id] = ("ovf", w)
            return out
        if op == "extractvalue":
            agg = self.key(st, i.ops[0])
            c = st.conds.get(agg[1]) if agg[0] == "i" else None
            if c and c[0] == "ovf":
                if i.d.get("idx") == [0]:
                    st.alias[i.id] = list(agg)
                    return [st]
                if i.d.get("idx") == [1] and c[1] is not None:
                    st.alias[i.id] = ["c", 1 if c[1] != 0 else 0, 1]
                    return [st]
            st.env[key] = AV(SMIN, SMAX, None, None)
            return [st]
        if op == "atomicrmw":
            flds = sorted(n for n, _ in i.fn.module.fields_at(i.d["ptr"].get("sty", ""), i.d["ptr"]["off"])) if i.d.get("ptr") else []
            st.env[key] = AV(SMIN, SMAX, 0, {("R", flds[0] if flds else "mem", i.d["rmw"]): 1})
            return [st]
        if op == "call":
            self.events.append((i, st.fork()))
        if op == "call":
            cal = i.callee or "?"
            if i.d.get("ty") in (None, "void"):
                return [st]
            n = st.ncalls.get(cal, 0)
            st.ncalls[cal] = n + 1
            lo, hi = self.calls.get(cal, (SMIN, SMAX))
            atom = ("N", cal) if n == 0 else ("N", cal, n)
            st.env[key] = AV(lo, hi, 0, {atom: 1})
            return [st]
        if op == "load":
            flds = sorted(i.fn.module.fields_at(i.d["ptr"].get("sty", ""), i.d["ptr"]["off"])) if i.d.get("ptr") else []
            fname = flds[0][0] if flds else "mem%d" % i.id
            lo, hi = self.loads.get(fname, (SMIN, SMAX))
            st.env[key] = AV(lo, hi, 0, {("L", fname): 1})
            return [st]
        if op in ("getelementptr", "alloca", "store", "fence"):
            return [st]
        # anything else: unknown value
        st.env[key] = AV(SMIN, SMAX, None, None)
        return [st]

    # ------------------------------------------------------------ driver
    def run(self, init=None):
        st0 = State()
        if init:
            init(self, st0)
        work = [(st0, 0, 0, None)]
        while work:
            st, bid, idx, pred = work.pop()
            self.nstates += 1
            if self.nstates > self.max_states:
                raise AnalysisBroken("path bound exceeded in %s (%d states)" % (self.fn.name, self.nstates))
            b = self.fn.blocks[bid]
            if idx == 0:
                if bid in st.trace:
                    raise AnalysisBroken("loop reached in %s at bb%d: function is not loop-free" % (self.fn.name, bid))
                st.trace.append(bid)
                # phis: parallel assignment
                for i in b.insts:
                    if i.op != "phi":
                        break
                    for v, frm in i.ops:
                        if frm == pred:
                            st.alias[i.id] = list(self.key(st, v))
                            break
            cont = True
            k = idx
            while k < len(b.insts) - 1:
                i = b.insts[k]
                k += 1
                if i.op == "phi":
                    continue
                succ = self.step(st, i)
                if len(succ) == 1 and succ[0] is st:
                    continue
                for s2 in succ:
                    work.append((s2, bid, k, pred))
                cont = False
                break
            if not cont:
                continue
            t = b.term
            if t.op == "ret":
                self.returns.append((st, t.ops[0] if t.ops else None))
            elif t.op == "unreachable":
                pass
            elif t.op == "br":
                succs = t.d["succs"]
                if len(succs) == 1:
                    work.append((st, succs[0], 0, bid))
                else:
                    s2 = st.fork()
                    for s in self.refine_cond(st, t.ops[0], True):
                        work.append((s, succs[0], 0, bid))
                    for s in self.refine_cond(s2, t.ops[0], False):
                        work.append((s, succs[1], 0, bid))
            elif t.op == "switch":
                x = t.ops[0]
                cases = t.d["cases"]
                for cv, tgt in cases:
                    s2 = st.fork()
                    for s in self.refine_cmp(s2, "eq", x, ["c", cv, 64], True):
                        work.append((s, tgt, 0, bid))
                ss = [st]
                for cv, tgt in cases:
                    nxt = []
                    for s in ss:
                        nxt.extend(self.refine_cmp(s, "ne", x, ["c", cv, 64], True))
                    ss = nxt
                for s in ss:
                    work.append((s, t.d["default"], 0, bid))
            else:
                raise AnalysisBroken("unsupported terminator %s in %s" % (t.op, self.fn.name))
        return self.returns
