"""Bit-level abstract values relative to one symbolic base word `old` (family TR, DESIGN.md 2.2).

A BV of width w describes a machine value bit by bit:
   k0   mask of bits known to be 0
   k1   mask of bits known to be 1
   om   mask of bits equal to the same bit of `old`            (preserved)
   nm   mask of bits equal to the negation of that bit of `old` (flipped)
   every other bit is unknown; `ors` names the symbols that may have contributed to unknown bits
   (e.g. the caller's tid), `arith` lists additive deltas applied (op, operand description, low bit)
"""


def mask(w):
    return (1 << w) - 1


def lowbit(x):
    """index of lowest set bit, or None"""
    if x == 0:
        return None
    return (x & -x).bit_length() - 1


class BV:
    __slots__ = ("w", "k0", "k1", "om", "nm", "ors", "arith", "sym", "someset", "gm", "lin")

    def __init__(self, w, k0=0, k1=0, om=0, nm=0, ors=(), arith=(), sym=None):
        self.w = w
        self.k0 = k0 & mask(w)
        self.k1 = k1 & mask(w)
        self.om = om & mask(w) & ~self.k0 & ~self.k1
        self.nm = nm & mask(w) & ~self.k0 & ~self.k1
        self.ors = tuple(ors)
        self.arith = tuple(arith)
        self.sym = sym      # name if this value is exactly one opaque symbol
        self.someset = ()   # masks of which at least one bit is known to be 1
        self.gm = 0         # bits known to be >= the same bit of old (old OR something)
        self.lin = None     # d such that value == old + d (mod 2^w) exactly
        if self.k1:
            self.someset = (self.k1,)

    # constructors
    @staticmethod
    def const(w, c):
        c &= mask(w)
        return BV(w, k0=~c, k1=c)

    @staticmethod
    def old(w):
        r = BV(w, om=mask(w), sym="old")
        r.lin = 0
        return r

    @staticmethod
    def unknown(w, sym=None):
        return BV(w, ors=((sym, mask(w)),) if sym else (), sym=sym)

    def is_const(self):
        return (self.k0 | self.k1) == mask(self.w)

    def value(self):
        return self.k1 if self.is_const() else None

    @property
    def unk(self):
        return mask(self.w) & ~(self.k0 | self.k1 | self.om | self.nm)

    def maybe1(self):
        """mask of bits that may be one"""
        return mask(self.w) & ~self.k0

    # ------------------------------------------------------------ ops
    def and_(self, o):
        k0 = self.k0 | o.k0
        k1 = self.k1 & o.k1
        om = (self.om & o.k1) | (o.om & self.k1) | (self.om & o.om)
        nm = (self.nm & o.k1) | (o.nm & self.k1) | (self.nm & o.nm)
        k0 |= (self.om & o.nm) | (self.nm & o.om)
        r = BV(self.w, k0, k1, om, nm, self._ors(o, ~k0), self.arith + o.arith)
        r.someset = r.someset + tuple(m for m in self.someset if (m & ~o.k1) == 0) + tuple(m for m in o.someset if (m & ~self.k1) == 0)
        r.gm = ((self.gm & o.k1) | (o.gm & self.k1)) & ~(r.k0 | r.k1 | r.om | r.nm)
        return r

    def or_(self, o):
        k1 = self.k1 | o.k1
        k0 = self.k0 & o.k0
        om = (self.om & o.k0) | (o.om & self.k0) | (self.om & o.om)
        nm = (self.nm & o.k0) | (o.nm & self.k0) | (self.nm & o.nm)
        k1 |= (self.om & o.nm) | (self.nm & o.om)
        r = BV(self.w, k0, k1, om, nm, self._ors(o, ~k1), self.arith + o.arith)
        r.someset = r.someset + self.someset + o.someset
        r.gm = (self.om | self.gm | o.om | o.gm) & ~(r.k0 | r.k1 | r.om | r.nm)
        return r

    def xor_(self, o):
        k1 = (self.k1 & o.k0) | (self.k0 & o.k1)
        k0 = (self.k0 & o.k0) | (self.k1 & o.k1) | (self.om & o.om) | (self.nm & o.nm)
        k1 |= (self.om & o.nm) | (self.nm & o.om)
        om = (self.om & o.k0) | (o.om & self.k0) | (self.nm & o.k1) | (o.nm & self.k1)
        nm = (self.nm & o.k0) | (o.nm & self.k0) | (self.om & o.k1) | (o.om & self.k1)
        return BV(self.w, k0, k1, om, nm, self._ors(o, mask(self.w)), self.arith + o.arith)

    def _ors(self, o, live):
        out = []
        for (s, m) in self.ors + o.ors:
            m &= live
            if m and s:
                out.append((s, m))
        return tuple(out)

    def not_(self):
        return self.xor_(BV.const(self.w, mask(self.w)))

    def addsub(self, o, sign, desc):
        """self +/- o"""
        if self.is_const() and o.is_const():
            return BV.const(self.w, self.k1 + sign * o.k1)
        lb = lowbit(o.maybe1())
        if lb is None:
            return self
        r = self._addsub(o, sign, desc, lb)
        if self.lin is not None and o.is_const():
            r.lin = self.lin + sign * o.k1
        return r

    def _addsub(self, o, sign, desc, lb):
        if o.is_const():
            c = o.k1
            known = self.k0 | self.k1
            single = c & (c - 1) == 0
            ar = self.arith + ((("+" if sign > 0 else "-"), desc, lb, c),)
            if single and sign < 0 and (self.k1 & c):
                # subtracting 2^k from a value whose bit k is 1: clears the bit, no borrow
                r = BV(self.w, self.k0 | c, self.k1 & ~c, self.om & ~c, self.nm & ~c, self.ors, ar)
                r.gm = self.gm & ~c
                return r
            if single and sign > 0 and (self.k0 & c):
                r = BV(self.w, self.k0 & ~c, self.k1 | c, self.om & ~c, self.nm & ~c, self.ors, ar)
                r.gm = self.gm & ~c
                return r
            hi = mask(self.w) & ~mask(lb)
            if (known & hi) == hi:
                # every bit from the lowest addend bit upward is known: exact
                v = ((self.k1 & hi) + sign * c) & mask(self.w) & hi
                low = mask(lb)
                return BV(self.w, (self.k0 & low) | (hi & ~v), (self.k1 & low) | v, self.om & low, self.nm & low, self.ors, ar)
        lb2 = lowbit(self.maybe1())
        # bits below the lowest possibly-set bit of the addend are unchanged
        low = mask(lb)
        if o.is_const() and self.is_const() is False and lb2 is not None and sign > 0:
            pass
        k0 = self.k0 & low
        k1 = self.k1 & low
        om = self.om & low
        nm = self.nm & low
        # adding into a field whose bits of self are all known zero up to the top of the addend: exact
        if o.is_const():
            c = o.k1
            top = c.bit_length()
            fld = mask(top) & ~low
            if sign > 0 and (self.k0 & fld) == fld:
                # no carry out of the field: result bits = c in the field, above unchanged
                return BV(self.w, (self.k0 & ~fld) | (fld & ~c), (self.k1 & ~fld) | c, self.om & ~fld, self.nm & ~fld,
                          self.ors, self.arith + ((("+", desc, lb, c)),))
        cval = o.k1 if o.is_const() else None
        return BV(self.w, k0, k1, om, nm, self.ors + o.ors, self.arith + ((("+" if sign > 0 else "-"), desc, lb, cval),))

    def shl(self, n):
        m = mask(self.w)
        return BV(self.w, ((self.k0 << n) | mask(n)) & m, (self.k1 << n) & m, 0, 0,
                  tuple((s, (mm << n) & m) for s, mm in self.ors), self.arith)

    def lshr(self, n):
        hi = mask(self.w) & ~mask(self.w - n) if n <= self.w else mask(self.w)
        return BV(self.w, (self.k0 >> n) | hi, self.k1 >> n, 0, 0, tuple((s, mm >> n) for s, mm in self.ors), self.arith)

    def zext(self, w):
        hi = mask(w) & ~mask(self.w)
        r = BV(w, self.k0 | hi, self.k1, self.om, self.nm, self.ors, self.arith, self.sym)
        r.someset = self.someset
        return r

    def trunc(self, w):
        m = mask(w)
        return BV(w, self.k0 & m, self.k1 & m, self.om & m, self.nm & m, tuple((s, mm & m) for s, mm in self.ors if mm & m), self.arith, self.sym)

    def join(self, o):
        r = BV(self.w, self.k0 & o.k0, self.k1 & o.k1, self.om & o.om, self.nm & o.nm,
               tuple(set(self.ors + o.ors)), tuple(set(self.arith + o.arith)))
        r.gm = (self.gm | self.om) & (o.gm | o.om) & ~(r.k0 | r.k1 | r.om | r.nm)
        if self.someset and o.someset:
            r.someset = r.someset + (min(self.someset, key=lambda m: bin(m).count("1")) | min(o.someset, key=lambda m: bin(m).count("1")),)
        return r

    def with_someset(self, m):
        r = BV(self.w, self.k0, self.k1, self.om, self.nm, self.ors, self.arith, self.sym)
        r.someset = self.someset + (m,)
        return r

    def subst_old(self, ok0, ok1):
        """apply knowledge about old (known-0 / known-1 masks)"""
        k0 = self.k0 | (self.om & ok0) | (self.nm & ok1)
        k1 = self.k1 | (self.om & ok1) | (self.nm & ok0)
        r = BV(self.w, k0, k1, self.om, self.nm, self.ors, self.arith, self.sym)
        r.someset = r.someset + self.someset
        r.gm = self.gm & ~(r.k0 | r.k1)
        r.k1 |= self.gm & ok1
        return r

    def __repr__(self):
        def h(x):
            return hex(x)
        parts = []
        if self.is_const():
            return "BV(%s)" % h(self.k1)
        if self.k1:
            parts.append("1:" + h(self.k1))
        if self.k0:
            parts.append("0:" + h(self.k0))
        if self.om:
            parts.append("old:" + h(self.om))
        if self.nm:
            parts.append("~old:" + h(self.nm))
        if self.unk:
            parts.append("?:" + h(self.unk))
        if self.ors:
            parts.append("from:" + ",".join("%s&%s" % (s, h(m)) for s, m in self.ors[:4]))
        if self.gm:
            parts.append(">=old:" + h(self.gm))
        if self.someset:
            parts.append("some:" + ",".join(h(m) for m in self.someset[:3]))
        if self.arith:
            parts.append("arith:" + ",".join("%s%s@%d" % (a[0], a[1], a[2]) for a in self.arith[:4]))
        return "BV(" + " ".join(parts) + ")"


class OldFacts:
    """what the guards on a path say about `old`"""
    __slots__ = ("w", "k0", "k1", "ulo", "uhi", "notes", "some_set", "eq_exprs")

    def __init__(self, w):
        self.w = w
        self.k0 = 0
        self.k1 = 0
        self.ulo = 0
        self.uhi = mask(w)
        self.notes = []      # human readable guard list
        self.some_set = []   # masks of which at least one bit is set
        self.eq_exprs = []   # old == <expression description> equalities

    def copy(self):
        o = OldFacts(self.w)
        o.k0, o.k1, o.ulo, o.uhi = self.k0, self.k1, self.ulo, self.uhi
        o.notes = list(self.notes)
        o.some_set = list(self.some_set)
        o.eq_exprs = list(self.eq_exprs)
        return o

    def normalize(self):
        """propagate between interval and known bits; returns False if contradictory"""
        if self.k0 & self.k1:
            return False
        for _ in range(3):
            # interval -> bits: common high prefix of ulo and uhi
            if self.ulo > self.uhi:
                return False
            diff = self.ulo ^ self.uhi
            top = diff.bit_length()
            prefix = mask(self.w) & ~mask(top)
            self.k1 |= self.uhi & prefix
            self.k0 |= ~self.uhi & prefix
            if self.k0 & self.k1:
                return False
            # bits -> interval
            lo = self.k1
            hi = mask(self.w) & ~self.k0
            self.ulo = max(self.ulo, lo)
            self.uhi = min(self.uhi, hi)
            if self.ulo > self.uhi:
                return False
        for m in self.some_set:
            if (m & ~self.k0) == 0:
                return False
        return True

    def __repr__(self):
        return "old{0:%#x 1:%#x [%#x,%#x] %s}" % (self.k0, self.k1, self.ulo, self.uhi, "; ".join(self.notes))
