"""Compile-time extraction of the library's own constant vocabulary (macro / enum values) by
compiling a generated translation unit to LLVM IR with the build's flags and reading the constant
initialisers (nothing is executed). Rules are written against these names, so a re-numbered bit
layout changes the rules with it."""
import json, os, subprocess
from . import build

_cache = {}


def get(names, repo=None, srcdir=None, unit="queue", includes=()):
    key = (tuple(sorted(names)), repo, srcdir, tuple(includes))
    if key in _cache:
        return _cache[key]
    src, flags, cwd = build.ast_flags(unit, repo, srcdir)
    sd = build.scratch()
    cfile = os.path.join(sd, "verif_consts_%d.c" % len(_cache))
    with open(cfile, "w") as f:
        f.write('#include "internal.h"\n')
        for inc in includes:
            f.write('#include <%s>\n' % inc)
        for n in sorted(names):
            f.write("const unsigned long long verif_%s = (unsigned long long)(%s);\n" % (n, n))
    bc = cfile[:-2] + ".ll"
    r = subprocess.run([build.CLANG] + flags + ["-O0", "-S", "-emit-llvm", "-c", cfile, "-o", bc],
                       capture_output=True, text=True, cwd=cwd if os.path.isdir(cwd) else None)
    if r.returncode != 0:
        raise build.AnalysisBroken("constant extraction failed (anchor vanished?): " + r.stderr[-1500:])
    out = {}
    for line in open(bc):
        if line.startswith("@verif_"):
            # @verif_X = dso_local constant i64 123, align 8
            name = line.split()[0][len("@verif_"):]
            val = line.split(" i64 ", 1)[1].split(",")[0].strip()
            out[name] = int(val) & ((1 << 64) - 1)
    missing = [n for n in names if n not in out]
    if missing:
        raise build.AnalysisBroken("constants not extracted: %s" % missing)
    _cache[key] = out
    return out
