"""Conditional constant propagation over the facts of one (inlined, loop-free or loop-bounded) function.
Abstract domain: TOP | integer constant | ('g', global, byte offset) | null.  Branches whose condition is a
constant are followed on one side only, others on both sides; the result is the set of abstract return values.
Used for table-agreement rules (family TB): the documented inputs of a pure mapping function are propagated as
constants; everything else stays TOP."""
from .build import AnalysisBroken

TOP = ("top",)


def _m(w):
    return (1 << w) - 1


def _s(v, w):
    return v - (1 << w) if v >> (w - 1) else v


class SCCP:
    def __init__(self, prog, fn, args, bound=4000):
        self.prog, self.fn, self.args, self.bound = prog, fn, args, bound
        self.n = 0

    def val(self, env, op):
        k = op[0]
        if k == "c":
            return ("c", op[1], op[2])
        if k == "n":
            return ("c", 0, 64)
        if k == "a":
            v = self.args.get(op[1], TOP)
            return v
        if k == "g":
            return ("g", op[1], op[2] if len(op) > 2 else 0)
        if k == "i":
            return env.get(op[1], TOP)
        return TOP

    def step(self, env, i):
        op = i.op
        w = i.d.get("w") or 64
        g = lambda n: self.val(env, i.ops[n])
        if op in ("add", "sub", "mul", "and", "or", "xor", "shl", "lshr", "ashr", "udiv", "urem", "sdiv", "srem"):
            a, b = g(0), g(1)
            if a[0] == "c" and b[0] == "c":
                x, y = a[1], b[1]
                try:
                    r = {"add": lambda: x + y, "sub": lambda: x - y, "mul": lambda: x * y, "and": lambda: x & y, "or": lambda: x | y,
                         "xor": lambda: x ^ y, "shl": lambda: x << y, "lshr": lambda: x >> y, "ashr": lambda: _s(x, w) >> y,
                         "udiv": lambda: x // y, "urem": lambda: x % y,
                         "sdiv": lambda: int(_s(x, w) / _s(y, w)), "srem": lambda: _s(x, w) - int(_s(x, w) / _s(y, w)) * _s(y, w)}[op]()
                except ZeroDivisionError:
                    return TOP
                return ("c", r & _m(w), w)
            if op == "and" and ((a[0] == "c" and a[1] == 0) or (b[0] == "c" and b[1] == 0)):
                return ("c", 0, w)
            if op in ("add", "sub") and a[0] == "g" and b[0] == "c":
                return ("g", a[1], a[2] + (_s(b[1], b[2]) if op == "add" else -_s(b[1], b[2])))
            return TOP
        if op in ("zext", "trunc"):
            a = g(0)
            return ("c", a[1] & _m(w), w) if a[0] == "c" else (a if a[0] == "g" else TOP)
        if op == "sext":
            a = g(0)
            return ("c", _s(a[1], a[2]) & _m(w), w) if a[0] == "c" else TOP
        if op in ("bitcast", "inttoptr", "ptrtoint"):
            return g(0)
        if op == "icmp":
            a, b = g(0), g(1)
            if a[0] == "c" and b[0] == "c":
                x, y, ww = a[1], b[1], max(a[2], b[2])
                r = {"eq": x == y, "ne": x != y, "ult": x < y, "ule": x <= y, "ugt": x > y, "uge": x >= y,
                     "slt": _s(x, ww) < _s(y, ww), "sle": _s(x, ww) <= _s(y, ww), "sgt": _s(x, ww) > _s(y, ww), "sge": _s(x, ww) >= _s(y, ww)}[i.d["pred"]]
                return ("c", int(r), 1)
            if a[0] == "g" and b[0] == "c" and b[1] == 0 and i.d["pred"] in ("eq", "ne"):
                return ("c", int(i.d["pred"] == "ne"), 1)
            return TOP
        if op == "select":
            c = g(0)
            if c[0] == "c":
                return g(1) if c[1] else g(2)
            a, b = g(1), g(2)
            return a if a == b else TOP
        if op == "getelementptr":
            p = i.d.get("ptr")
            if p and p["base"][0] == "g":
                off = p["off"]
                if p.get("vidx"):
                    gl = self.prog.global_(p["base"][1])
                    es = gl.get("esize") if gl else None
                    idx = self.val(env, p["vidx"][0])
                    if es and idx[0] == "c" and len(p["vidx"]) == 1:
                        return ("g", p["base"][1], off + _s(idx[1], idx[2]) * es)
                    return TOP
                return ("g", p["base"][1], off)
            base = self.val(env, p["base"]) if p else TOP
            if base[0] == "g" and p and not p.get("vidx"):
                return ("g", base[1], base[2] + p["off"])
            return TOP
        if op == "load":
            # constant tables
            p = i.d.get("ptr")
            base = self.val(env, p["base"]) if p else TOP
            if p and p["base"][0] == "g":
                base = ("g", p["base"][1], 0)
            if base[0] == "g" and p and not p.get("vidx"):
                gl = self.prog.global_(base[1])
                if gl and gl.get("const") and isinstance(gl.get("init"), list) and gl.get("esize"):
                    off = base[2] + p["off"]
                    if off % gl["esize"] == 0 and 0 <= off // gl["esize"] < len(gl["init"]):
                        v = gl["init"][off // gl["esize"]]
                        if isinstance(v, int):
                            return ("c", v & _m(w), w)
            return TOP
        return TOP

    def run(self):
        """returns list of (return value, path)"""
        fn = self.fn
        out = []
        work = [({}, 0, None, [0])]
        while work:
            env, bid, pred, path = work.pop()
            self.n += 1
            if self.n > self.bound:
                raise AnalysisBroken("constant propagation bound exceeded in %s" % fn.name)
            b = fn.blocks[bid]
            newphi = {}
            for i in b.insts:
                if i.op != "phi":
                    break
                for v, frm in i.ops:
                    if frm == pred:
                        newphi[i.id] = self.val(env, v)
            env = dict(env)
            env.update(newphi)
            for i in b.insts[:-1]:
                if i.op == "phi":
                    continue
                env[i.id] = self.step(env, i)
            t = b.term
            if t.op == "ret":
                out.append((self.val(env, t.ops[0]) if t.ops else None, path))
            elif t.op == "unreachable":
                pass
            elif t.op == "br":
                succs = t.d["succs"]
                if len(succs) == 1:
                    nxt = [succs[0]]
                else:
                    c = self.val(env, t.ops[0])
                    nxt = [succs[0] if c[1] else succs[1]] if c[0] == "c" else list(dict.fromkeys(succs))
                for s in nxt:
                    if path.count(s) < 3:
                        work.append((env, s, bid, path + [s]))
            elif t.op == "switch":
                c = self.val(env, t.ops[0])
                if c[0] == "c":
                    tgt = t.d["default"]
                    for cv, bb in t.d["cases"]:
                        if cv == c[1]:
                            tgt = bb
                    nxt = [tgt]
                else:
                    nxt = list(dict.fromkeys([bb for _, bb in t.d["cases"]] + [t.d["default"]]))
                for s in nxt:
                    if path.count(s) < 3:
                        work.append((env, s, bid, path + [s]))
        return out
