// llvm2facts: normalise an LLVM-14 module produced by
//   clang-14 -O0 -g -Xclang -disable-llvm-passes -Xclang -disable-O0-optnone -emit-llvm
// and dump it as JSON facts for the Python rule engine (see DESIGN.md 2.1).
//
// usage: llvm2facts <in.bc> <out.json> [--inline=leaves|all|none]
//
// Nothing is executed; this is a pure IR-to-facts translation.
#include <fstream>
#include <functional>
#include <map>
#include <set>
#include "llvm/ADT/DenseMap.h"
#include "llvm/ADT/SmallPtrSet.h"
#include "llvm/ADT/StringExtras.h"
#include "llvm/IR/Constants.h"
#include "llvm/IR/DataLayout.h"
#include "llvm/IR/DebugInfo.h"
#include "llvm/IR/DebugInfoMetadata.h"
#include "llvm/IR/Function.h"
#include "llvm/IR/GetElementPtrTypeIterator.h"
#include "llvm/IR/GlobalVariable.h"
#include "llvm/IR/InstIterator.h"
#include "llvm/IR/Instructions.h"
#include "llvm/IR/IntrinsicInst.h"
#include "llvm/IR/LLVMContext.h"
#include "llvm/IR/Module.h"
#include "llvm/IR/Operator.h"
#include "llvm/IR/Verifier.h"
#include "llvm/IRReader/IRReader.h"
#include "llvm/Passes/PassBuilder.h"
#include "llvm/Support/SourceMgr.h"
#include "llvm/Support/raw_ostream.h"
#include <map>
#include <set>
#include <string>
#include <vector>

using namespace llvm;

static std::string jstr(StringRef s) {
  std::string o = "\"";
  for (unsigned char c : s) {
    if (c == '"' || c == '\\') { o += '\\'; o += c; }
    else if (c < 0x20 || c >= 0x7f) { char b[8]; snprintf(b, sizeof b, "\\u%04x", c); o += b; }
    else o += c;
  }
  o += '"';
  return o;
}

static std::string tystr(Type *t) {
  std::string s; raw_string_ostream os(s); t->print(os, false, true); os.flush();
  return s;
}

// ---------------------------------------------------------------- purity ---
static bool harmlessIntrinsic(const CallBase *cb) {
  const Function *f = cb->getCalledFunction();
  if (!f || !f->isIntrinsic()) return false;
  if (isa<DbgInfoIntrinsic>(cb)) return true;
  switch (f->getIntrinsicID()) {
  case Intrinsic::expect: case Intrinsic::expect_with_probability:
  case Intrinsic::ctpop: case Intrinsic::ctlz: case Intrinsic::cttz:
  case Intrinsic::bswap: case Intrinsic::fshl: case Intrinsic::fshr:
  case Intrinsic::umin: case Intrinsic::umax: case Intrinsic::smin: case Intrinsic::smax:
  case Intrinsic::abs: case Intrinsic::lifetime_start: case Intrinsic::lifetime_end:
  case Intrinsic::uadd_with_overflow: case Intrinsic::usub_with_overflow:
  case Intrinsic::umul_with_overflow: case Intrinsic::sadd_with_overflow:
  case Intrinsic::ssub_with_overflow: case Intrinsic::smul_with_overflow:
    return true;
  default: return false;
  }
}

static bool isPureLeaf(const Function &F, const SmallPtrSetImpl<const Function *> &pure) {
  if (F.isDeclaration() || F.isVarArg()) return false;
  for (const Argument &a : F.args())
    if (a.getType()->isPointerTy()) return false;
  if (F.getReturnType()->isVoidTy() || F.getReturnType()->isPointerTy()) return false;
  for (const BasicBlock &bb : F)
    for (const Instruction &i : bb) {
      if (isa<LoadInst>(i) || isa<StoreInst>(i) || isa<AtomicRMWInst>(i) ||
          isa<AtomicCmpXchgInst>(i) || isa<FenceInst>(i) || isa<AllocaInst>(i) ||
          isa<UnreachableInst>(i) || isa<InvokeInst>(i))
        return false;
      if (auto *cb = dyn_cast<CallBase>(&i)) {
        if (harmlessIntrinsic(cb)) continue;
        const Function *cf = cb->getCalledFunction();
        if (!cf || !pure.count(cf)) return false;
      }
    }
  return true;
}

// ------------------------------------------------------------- operands ---
struct Dumper {
  Module &M;
  const DataLayout &DL;
  raw_ostream &os;
  DenseMap<const Value *, unsigned> ids;       // per function
  DenseMap<const BasicBlock *, unsigned> bids; // per function
  Dumper(Module &m, raw_ostream &o) : M(m), DL(m.getDataLayout()), os(o) {}

  std::string constGlobalRef(const Constant *c) {
    // global (+ constant offset) through bitcasts / constant GEPs
    APInt off(64, 0);
    const Value *b = c->stripAndAccumulateConstantOffsets(DL, off, true);
    if (auto *f = dyn_cast<Function>(b)) return "[\"f\"," + jstr(f->getName()) + "]";
    if (auto *g = dyn_cast<GlobalValue>(b))
      return "[\"g\"," + jstr(g->getName()) + "," + std::to_string(off.getSExtValue()) + "]";
    return "";
  }

  std::string opnd(const Value *v) {
    if (auto *ci = dyn_cast<ConstantInt>(v)) {
      SmallString<40> s; ci->getValue().toStringUnsigned(s);
      return "[\"c\"," + std::string(s.str()) + "," + std::to_string(ci->getBitWidth()) + "]";
    }
    if (isa<ConstantPointerNull>(v)) return "[\"n\"]";
    if (isa<UndefValue>(v)) return "[\"u\"]";
    if (auto *a = dyn_cast<Argument>(v)) return "[\"a\"," + std::to_string(a->getArgNo()) + "]";
    if (auto *bb = dyn_cast<BasicBlock>(v)) return "[\"b\"," + std::to_string(bids.lookup(bb)) + "]";
    if (isa<Instruction>(v)) return "[\"i\"," + std::to_string(ids.lookup(v)) + "]";
    if (auto *c = dyn_cast<Constant>(v)) {
      std::string r = constGlobalRef(c);
      if (!r.empty()) return r;
      if (auto *ce = dyn_cast<ConstantExpr>(c)) {
        if (ce->getOpcode() == Instruction::IntToPtr || ce->getOpcode() == Instruction::PtrToInt ||
            ce->getOpcode() == Instruction::BitCast)
          return "[\"ce\"," + jstr(ce->getOpcodeName()) + "," + opnd(ce->getOperand(0)) + "]";
      }
      if (auto *cf = dyn_cast<ConstantFP>(c)) {
        return "[\"fp\"," + jstr(std::to_string(cf->getValueAPF().convertToDouble())) + "]";
      }
      std::string s; raw_string_ostream so(s); c->printAsOperand(so, false); so.flush();
      return "[\"x\"," + jstr(s) + "]";
    }
    if (isa<MetadataAsValue>(v)) return "[\"m\"]";
    if (isa<InlineAsm>(v)) return "[\"asm\"]";
    return "[\"x\",\"?\"]";
  }

  // pointer provenance: base value, constant byte offset, innermost named struct
  std::string ptrinfo(const Value *p) {
    if (!p->getType()->isPointerTy()) return "";
    int64_t off = 0; bool exact = true;
    const Value *cur = p;
    std::string sty; int64_t styoff = 0; // innermost (closest to base) named struct and offset from it
    std::vector<std::string> varidx;
    for (int guard = 0; guard < 64; ++guard) {
      if (auto *bc = dyn_cast<BitCastOperator>(cur)) { cur = bc->getOperand(0); continue; }
      if (auto *gep = dyn_cast<GEPOperator>(cur)) {
        APInt o(64, 0);
        Type *src = gep->getSourceElementType();
        if (gep->accumulateConstantOffset(DL, o)) {
          off += o.getSExtValue();
        } else {
          // variable index: accumulate the constant part only, flag inexact
          exact = false;
          // try: all-constant except array indices -> keep struct field part
          int64_t partial = 0;
          gep_type_iterator gti = gep_type_begin(gep);
          for (auto it = gep->idx_begin(); it != gep->idx_end(); ++it, ++gti) {
            if (auto *ci = dyn_cast<ConstantInt>(*it)) {
              if (StructType *st = gti.getStructTypeOrNull())
                partial += DL.getStructLayout(st)->getElementOffset(ci->getZExtValue());
              else
                partial += ci->getSExtValue() * (int64_t)DL.getTypeAllocSize(gti.getIndexedType());
            } else {
              varidx.push_back(opnd(*it) );
            }
          }
          off += partial;
        }
        if (auto *st = dyn_cast<StructType>(src)) {
          if (st->hasName()) { sty = st->getName().str(); styoff = off; }
        }
        cur = gep->getPointerOperand();
        continue;
      }
      break;
    }
    // if no GEP gave a struct, use the base pointer's pointee type
    if (sty.empty()) {
      if (auto *pt = dyn_cast<PointerType>(cur->getType())) {
        Type *el = pt->getPointerElementType();
        if (auto *st = dyn_cast<StructType>(el)) if (st->hasName()) { sty = st->getName().str(); styoff = off; }
      }
    }
    // NB: styoff is the offset accumulated *outside* (after) the GEP that named sty, we want
    // the offset relative to the base of sty which is the total offset (sty GEP is innermost).
    std::string s = "{\"base\":" + opnd(cur) + ",\"off\":" + std::to_string(off) +
                    ",\"exact\":" + (exact ? "true" : "false");
    if (!sty.empty()) s += ",\"sty\":" + jstr(sty);
    if (!varidx.empty()) { s += ",\"vidx\":["; for (size_t i = 0; i < varidx.size(); ++i) { if (i) s += ","; s += varidx[i]; } s += "]"; }
    s += "}";
    return s;
  }

  static const char *ordname(AtomicOrdering o) {
    switch (o) {
    case AtomicOrdering::NotAtomic: return "na";
    case AtomicOrdering::Unordered: return "unordered";
    case AtomicOrdering::Monotonic: return "relaxed";
    case AtomicOrdering::Acquire: return "acquire";
    case AtomicOrdering::Release: return "release";
    case AtomicOrdering::AcquireRelease: return "acq_rel";
    case AtomicOrdering::SequentiallyConsistent: return "seq_cst";
    }
    return "?";
  }

  std::string locstr(const Instruction &I) {
    const DebugLoc &dl = I.getDebugLoc();
    if (!dl) return "";
    std::string s;
    const DILocation *l = dl.get();
    auto *sc = l->getScope();
    s += ",\"loc\":[" + jstr(sc->getFilename()) + "," + std::to_string(l->getLine()) + "," + std::to_string(l->getColumn()) + "]";
    // function the instruction textually belongs to (innermost subprogram)
    if (auto *sp = sc->getSubprogram()) s += ",\"sp\":" + jstr(sp->getName());
    if (const DILocation *ia = l->getInlinedAt()) {
      s += ",\"ia\":[";
      bool first = true;
      for (; ia; ia = ia->getInlinedAt()) {
        if (!first) s += ",";
        first = false;
        auto *isp = ia->getScope()->getSubprogram();
        s += "[" + jstr(isp ? isp->getName() : "") + "," + jstr(ia->getScope()->getFilename()) + "," + std::to_string(ia->getLine()) + "]";
      }
      s += "]";
    }
    return s;
  }

  void dumpInst(const Instruction &I) {
    os << "{\"id\":" << ids.lookup(&I) << ",\"op\":" << jstr(I.getOpcodeName());
    if (!I.getType()->isVoidTy()) os << ",\"ty\":" << jstr(tystr(I.getType()));
    if (I.getType()->isIntegerTy()) os << ",\"w\":" << I.getType()->getIntegerBitWidth();
    // operands
    os << ",\"ops\":[";
    if (auto *phi = dyn_cast<PHINode>(&I)) {
      for (unsigned k = 0; k < phi->getNumIncomingValues(); ++k) {
        if (k) os << ",";
        os << "[" << opnd(phi->getIncomingValue(k)) << "," << bids.lookup(phi->getIncomingBlock(k)) << "]";
      }
    } else if (auto *cb = dyn_cast<CallBase>(&I)) {
      unsigned k = 0;
      for (const Use &u : cb->args()) { if (k++) os << ","; os << opnd(u.get()); }
    } else if (auto *sw = dyn_cast<SwitchInst>(&I)) {
      os << opnd(sw->getCondition());
    } else if (auto *br = dyn_cast<BranchInst>(&I)) {
      if (br->isConditional()) os << opnd(br->getCondition());
    } else {
      for (unsigned k = 0; k < I.getNumOperands(); ++k) { if (k) os << ","; os << opnd(I.getOperand(k)); }
    }
    os << "]";
    if (auto *cb = dyn_cast<CallBase>(&I)) {
      const Value *cv = cb->getCalledOperand()->stripPointerCasts();
      if (auto *f = dyn_cast<Function>(cv)) os << ",\"callee\":" << jstr(f->getName());
      else if (isa<InlineAsm>(cv)) os << ",\"callee\":\"<asm>\"";
      else { os << ",\"icallee\":" << opnd(cv);
             os << ",\"fty\":" << jstr(tystr(cb->getFunctionType())); }
      if (cb->doesNotReturn() || (cb->getCalledFunction() && cb->getCalledFunction()->doesNotReturn())) os << ",\"noret\":true";
      if (cb->isMustTailCall() ) os << ",\"tail\":true";
    }
    if (auto *br = dyn_cast<BranchInst>(&I)) {
      os << ",\"succs\":[";
      for (unsigned k = 0; k < br->getNumSuccessors(); ++k) { if (k) os << ","; os << bids.lookup(br->getSuccessor(k)); }
      os << "]";
    }
    if (auto *sw = dyn_cast<SwitchInst>(&I)) {
      os << ",\"default\":" << bids.lookup(sw->getDefaultDest()) << ",\"cases\":[";
      bool first = true;
      for (auto &c : sw->cases()) {
        if (!first) os << ","; first = false;
        SmallString<40> s; c.getCaseValue()->getValue().toStringUnsigned(s);
        os << "[" << s << "," << bids.lookup(c.getCaseSuccessor()) << "]";
      }
      os << "]";
    }
    if (auto *ic = dyn_cast<ICmpInst>(&I)) os << ",\"pred\":" << jstr(CmpInst::getPredicateName(ic->getPredicate()));
    if (auto *li = dyn_cast<LoadInst>(&I)) {
      os << ",\"ord\":" << jstr(ordname(li->getOrdering()));
      if (li->isVolatile()) os << ",\"vol\":true";
      os << ",\"ptr\":" << ptrinfo(li->getPointerOperand());
    }
    if (auto *si = dyn_cast<StoreInst>(&I)) {
      os << ",\"ord\":" << jstr(ordname(si->getOrdering()));
      if (si->isVolatile()) os << ",\"vol\":true";
      os << ",\"vty\":" << jstr(tystr(si->getValueOperand()->getType()));
      os << ",\"ptr\":" << ptrinfo(si->getPointerOperand());
    }
    if (auto *rmw = dyn_cast<AtomicRMWInst>(&I)) {
      os << ",\"ord\":" << jstr(ordname(rmw->getOrdering()));
      os << ",\"rmw\":" << jstr(AtomicRMWInst::getOperationName(rmw->getOperation()));
      if (rmw->isVolatile()) os << ",\"vol\":true";
      os << ",\"ptr\":" << ptrinfo(rmw->getPointerOperand());
    }
    if (auto *cx = dyn_cast<AtomicCmpXchgInst>(&I)) {
      os << ",\"ord\":" << jstr(ordname(cx->getSuccessOrdering()));
      os << ",\"ford\":" << jstr(ordname(cx->getFailureOrdering()));
      if (cx->isWeak()) os << ",\"weak\":true";
      if (cx->isVolatile()) os << ",\"vol\":true";
      os << ",\"vw\":" << cx->getCompareOperand()->getType()->getPrimitiveSizeInBits().getFixedSize();
      os << ",\"ptr\":" << ptrinfo(cx->getPointerOperand());
    }
    if (auto *fe = dyn_cast<FenceInst>(&I)) os << ",\"ord\":" << jstr(ordname(fe->getOrdering()));
    if (isa<GetElementPtrInst>(I) || isa<BitCastInst>(I)) {
      std::string p = ptrinfo(&I);
      if (!p.empty()) os << ",\"ptr\":" << p;
    }
    if (auto *ci = dyn_cast<CastInst>(&I)) os << ",\"sty\":" << jstr(tystr(ci->getSrcTy()));
    if (auto *ev = dyn_cast<ExtractValueInst>(&I)) {
      os << ",\"idx\":[";
      for (unsigned k = 0; k < ev->getNumIndices(); ++k) { if (k) os << ","; os << ev->getIndices()[k]; }
      os << "]";
    }
    if (auto *al = dyn_cast<AllocaInst>(&I)) {
      os << ",\"aty\":" << jstr(tystr(al->getAllocatedType()));
      os << ",\"asz\":" << DL.getTypeAllocSize(al->getAllocatedType()).getFixedSize();
    }
    os << locstr(I) << "}";
  }

  void dumpFunction(const Function &F) {
    ids.clear(); bids.clear();
    unsigned n = 0, b = 0;
    for (const BasicBlock &bb : F) { bids[&bb] = b++; for (const Instruction &i : bb) { if (isa<DbgInfoIntrinsic>(i)) continue; ids[&i] = n++; } }
    os << "{\"name\":" << jstr(F.getName());
    if (auto *sp = F.getSubprogram()) {
      os << ",\"file\":" << jstr(sp->getFilename()) << ",\"line\":" << sp->getLine();
    }
    os << ",\"linkage\":" << (F.hasLocalLinkage() ? "\"internal\"" : F.hasLinkOnceODRLinkage() || F.hasAvailableExternallyLinkage() ? "\"inline\"" : "\"external\"");
    os << ",\"vis\":" << (F.hasHiddenVisibility() ? "\"hidden\"" : "\"default\"");
    if (F.doesNotReturn()) os << ",\"noret\":true";
    os << ",\"ret\":" << jstr(tystr(F.getReturnType()));
    os << ",\"params\":[";
    for (const Argument &a : F.args()) {
      if (a.getArgNo()) os << ",";
      os << "[" << jstr(a.getName()) << "," << jstr(tystr(a.getType())) << "]";
    }
    os << "],\"blocks\":[";
    bool fb = true;
    for (const BasicBlock &bb : F) {
      if (!fb) os << ","; fb = false;
      os << "\n {\"id\":" << bids.lookup(&bb) << ",\"insts\":[";
      bool fi = true;
      for (const Instruction &i : bb) {
        if (isa<DbgInfoIntrinsic>(i)) continue;
        if (!fi) os << ","; fi = false;
        os << "\n  "; dumpInst(i);
      }
      os << "],\"succs\":[";
      const Instruction *t = bb.getTerminator();
      bool fs = true;
      std::set<unsigned> seen;
      if (t) for (unsigned k = 0; k < t->getNumSuccessors(); ++k) {
        unsigned sid = bids.lookup(t->getSuccessor(k));
        if (!seen.insert(sid).second) continue;
        if (!fs) os << ","; fs = false; os << sid;
      }
      os << "]}";
    }
    os << "]}";
  }

  // constant initialisers -------------------------------------------------
  void dumpConst(const Constant *c, unsigned depth) {
    if (auto *ci = dyn_cast<ConstantInt>(c)) { SmallString<40> s; ci->getValue().toStringUnsigned(s); os << s; return; }
    if (isa<ConstantPointerNull>(c)) { os << "null"; return; }
    if (isa<UndefValue>(c)) { os << "null"; return; }
    if (auto *cds = dyn_cast<ConstantDataSequential>(c)) {
      if (cds->getElementType()->isIntegerTy()) {
        os << "[";
        for (unsigned i = 0; i < cds->getNumElements(); ++i) { if (i) os << ","; os << cds->getElementAsInteger(i); }
        os << "]"; return;
      }
    }
    if (isa<ConstantAggregateZero>(c)) {
      Type *t = c->getType();
      uint64_t n = 0;
      if (auto *at = dyn_cast<ArrayType>(t)) n = at->getNumElements();
      else if (auto *st = dyn_cast<StructType>(t)) n = st->getNumElements();
      if (n <= 512 && depth < 6) {
        os << "[";
        for (uint64_t i = 0; i < n; ++i) { if (i) os << ","; dumpConst(c->getAggregateElement(i), depth + 1); }
        os << "]";
      } else os << "{\"zero\":" << n << "}";
      return;
    }
    if (isa<ConstantArray>(c) || isa<ConstantStruct>(c) || isa<ConstantVector>(c)) {
      unsigned n = c->getNumOperands();
      if (n > 8192) { os << "{\"agg\":" << n << "}"; return; }
      os << "[";
      for (unsigned i = 0; i < n; ++i) { if (i) os << ","; dumpConst(cast<Constant>(c->getOperand(i)), depth + 1); }
      os << "]"; return;
    }
    std::string r = constGlobalRef(c);
    if (!r.empty()) { os << r; return; }
    if (auto *ce = dyn_cast<ConstantExpr>(c)) {
      if (ce->getOpcode() == Instruction::IntToPtr || ce->getOpcode() == Instruction::PtrToInt) {
        os << "{\"cast\":"; dumpConst(ce->getOperand(0), depth + 1); os << "}"; return;
      }
    }
    std::string s; raw_string_ostream so(s); c->printAsOperand(so, false); so.flush();
    os << "{\"x\":" << jstr(s) << "}";
  }

  // function pointers inside a constant initialiser, with their byte offsets (vtables)
  void flatFuncs(const Constant *c, uint64_t off, std::vector<std::pair<uint64_t, std::string>> &out, unsigned depth) {
    if (depth > 8 || out.size() > 4096) return;
    const Value *b = c->stripPointerCasts();
    if (auto *f = dyn_cast<Function>(b)) { out.push_back({off, f->getName().str()}); return; }
    if (auto *ce = dyn_cast<ConstantExpr>(c)) {
      if (ce->getOpcode() == Instruction::BitCast || ce->getOpcode() == Instruction::PtrToInt || ce->getOpcode() == Instruction::IntToPtr)
        flatFuncs(cast<Constant>(ce->getOperand(0)), off, out, depth + 1);
      return;
    }
    Type *t = c->getType();
    if (auto *st = dyn_cast<StructType>(t)) {
      if (isa<ConstantAggregateZero>(c)) return;
      const StructLayout *sl = DL.getStructLayout(st);
      for (unsigned i = 0; i < st->getNumElements(); ++i)
        if (Constant *e = c->getAggregateElement(i)) flatFuncs(e, off + sl->getElementOffset(i), out, depth + 1);
    } else if (auto *at = dyn_cast<ArrayType>(t)) {
      if (isa<ConstantAggregateZero>(c)) return;
      uint64_t es = DL.getTypeAllocSize(at->getElementType());
      uint64_t n = at->getNumElements();
      if (n > 64) n = 64;
      for (uint64_t i = 0; i < n; ++i)
        if (Constant *e = c->getAggregateElement(i)) flatFuncs(e, off + i * es, out, depth + 1);
    }
  }

  // DWARF composite types ---------------------------------------------------
  std::map<const DIType *, unsigned> tyid;
  std::vector<const DIType *> tyorder;
  unsigned tid(const DIType *t) {
    auto it = tyid.find(t);
    if (it != tyid.end()) return it->second;
    unsigned id = tyorder.size();
    tyid[t] = id; tyorder.push_back(t);
    return id;
  }
  static const DIType *strip(const DIType *t) {
    while (t) {
      if (auto *d = dyn_cast<DIDerivedType>(t)) {
        unsigned tag = d->getTag();
        if (tag == dwarf::DW_TAG_typedef || tag == dwarf::DW_TAG_const_type || tag == dwarf::DW_TAG_volatile_type ||
            tag == dwarf::DW_TAG_atomic_type || tag == dwarf::DW_TAG_restrict_type || tag == dwarf::DW_TAG_member) {
          t = d->getBaseType(); continue;
        }
      }
      break;
    }
    return t;
  }
  void dumpTypes() {
    DebugInfoFinder F; F.processModule(M);
    std::map<std::string, unsigned> named;
    for (const DIType *t : F.types()) {
      if (auto *ct = dyn_cast<DICompositeType>(t)) {
        if (ct->isForwardDecl()) continue;
        unsigned tag = ct->getTag();
        if (tag != dwarf::DW_TAG_structure_type && tag != dwarf::DW_TAG_union_type) continue;
        tid(ct);
      }
    }
    os << "\"types\":[";
    for (size_t i = 0; i < tyorder.size(); ++i) {
      const DIType *t = tyorder[i];
      if (i) os << ",";
      os << "\n {\"id\":" << i;
      if (!t) { os << ",\"k\":\"void\"}"; continue; }
      os << ",\"size\":" << t->getSizeInBits() / 8;
      if (auto *ct = dyn_cast<DICompositeType>(t)) {
        unsigned tag = ct->getTag();
        if (tag == dwarf::DW_TAG_structure_type || tag == dwarf::DW_TAG_union_type) {
          os << ",\"k\":" << (tag == dwarf::DW_TAG_union_type ? "\"union\"" : "\"struct\"") << ",\"name\":" << jstr(ct->getName()) << ",\"members\":[";
          bool first = true;
          for (const DINode *el : ct->getElements()) {
            auto *m = dyn_cast<DIDerivedType>(el);
            if (!m || m->getTag() != dwarf::DW_TAG_member) continue;
            if (m->isStaticMember()) continue;
            if (!first) os << ","; first = false;
            const DIType *bt = strip(m->getBaseType());
            os << "[" << jstr(m->getName()) << "," << m->getOffsetInBits() / 8 << "," << m->getSizeInBits() / 8 << "," << tid(bt) << "]";
          }
          os << "]";
        } else if (tag == dwarf::DW_TAG_array_type) {
          uint64_t cnt = 0;
          for (const DINode *el : ct->getElements())
            if (auto *sr = dyn_cast<DISubrange>(el))
              if (auto *ci = sr->getCount().dyn_cast<ConstantInt *>()) cnt = cnt ? cnt * ci->getZExtValue() : ci->getZExtValue();
          os << ",\"k\":\"array\",\"elem\":" << tid(strip(ct->getBaseType())) << ",\"count\":" << cnt;
        } else if (tag == dwarf::DW_TAG_enumeration_type) {
          os << ",\"k\":\"enum\",\"name\":" << jstr(ct->getName());
        } else os << ",\"k\":\"other\"";
      } else if (auto *bt = dyn_cast<DIBasicType>(t)) {
        os << ",\"k\":\"base\",\"name\":" << jstr(bt->getName());
      } else if (auto *d = dyn_cast<DIDerivedType>(t)) {
        if (d->getTag() == dwarf::DW_TAG_pointer_type) {
          const DIType *pt = strip(d->getBaseType());
          os << ",\"k\":\"ptr\"";
          if (pt) if (auto *pct = dyn_cast<DICompositeType>(pt)) os << ",\"to\":" << jstr(pct->getName());
        } else os << ",\"k\":\"other\"";
      } else os << ",\"k\":\"other\"";
      os << "}";
    }
    os << "]";
  }
};


// ---------------------------------------------------------------- call signatures ---
// direct callees / referenced functions of F (by name, intrinsics excluded)
static void directRefs(const Function &F, std::set<const Function *> &out) {
  for (const BasicBlock &bb : F)
    for (const Instruction &i : bb) {
      if (auto *cb = dyn_cast<CallBase>(&i))
        if (const Function *cf = cb->getCalledFunction())
          if (!cf->isIntrinsic()) out.insert(cf);
      for (const Use &u : i.operands()) {
        const Value *v = u.get()->stripPointerCasts();
        if (auto *rf = dyn_cast<Function>(v))
          if (!rf->isIntrinsic()) out.insert(rf);
      }
    }
}

static std::string joinNames(const std::set<std::string> &s) {
  std::string r;
  for (auto &n : s) { if (!r.empty()) r += ","; r += n; }
  return r;
}

int main(int argc, char **argv) {
  if (argc < 3) { errs() << "usage: llvm2facts in.bc out.json [--inline=leaves|all|none]\n"; return 2; }
  std::string mode = "leaves";
  std::string knownPath, sigsPath, unitName, dumpSigsPath;
  std::set<std::string> forced;     // functions inlined into their callers whatever their linkage (a public entry point delegating to another one)
  for (int i = 3; i < argc; ++i) {
    StringRef a(argv[i]);
    if (a.startswith("--inline=")) mode = a.substr(9).str();
    if (a.startswith("--force-inline=")) { SmallVector<StringRef, 4> parts; a.substr(15).split(parts, ','); for (auto &p : parts) if (!p.empty()) forced.insert(p.str()); }
    if (a.startswith("--known=")) knownPath = a.substr(8).str();
    if (a.startswith("--sigs=")) sigsPath = a.substr(7).str();
    if (a.startswith("--unit=")) unitName = a.substr(7).str();
    if (a.startswith("--dump-sigs=")) dumpSigsPath = a.substr(12).str();
  }
  // vocabulary of function names the rules were written against: a static function that is NOT in it (a freshly extracted helper, a renamed
  // helper) is folded into its callers, as the optimising build does, so that the rules see the same code whether or not it was factored out
  std::set<std::string> known;
  if (!knownPath.empty()) {
    std::ifstream kf(knownPath);
    std::string ln;
    while (std::getline(kf, ln)) if (!ln.empty()) known.insert(ln);
  }
  LLVMContext ctx; SMDiagnostic err;
  std::unique_ptr<Module> M = parseIRFile(argv[1], err, ctx);
  if (!M) { err.print(argv[0], errs()); return 2; }

  LoopAnalysisManager LAM; FunctionAnalysisManager FAM; CGSCCAnalysisManager CGAM; ModuleAnalysisManager MAM;
  PassBuilder PB;
  PB.registerModuleAnalyses(MAM); PB.registerCGSCCAnalyses(CGAM); PB.registerFunctionAnalyses(FAM);
  PB.registerLoopAnalyses(LAM); PB.crossRegisterProxies(LAM, FAM, CGAM, MAM);
  const char *fpipe = "function(lower-expect,sroa,mem2reg,instsimplify,early-cse,simplifycfg)";
  {
    ModulePassManager MPM;
    if (auto e = PB.parsePassPipeline(MPM, fpipe)) { errs() << toString(std::move(e)) << "\n"; return 2; }
    MPM.run(*M, MAM);
  }
  std::vector<std::pair<std::string, std::string>> aliased;
  {
    // call graph by name
    std::map<const Function *, std::set<const Function *>> refs, users;
    for (Function &F : *M) if (!F.isDeclaration()) {
      directRefs(F, refs[&F]);
      for (const Function *c : refs[&F]) users[c].insert(&F);
    }
    if (!dumpSigsPath.empty()) {
      std::ofstream sf(dumpSigsPath);
      for (Function &F : *M) if (!F.isDeclaration()) {
        std::set<std::string> ce, cr;
        for (const Function *c : refs[&F]) ce.insert(c->getName().str());
        for (const Function *c : users[&F]) cr.insert(c->getName().str());
        sf << unitName << "\t" << F.getName().str() << "\t" << joinNames(ce) << "\t" << joinNames(cr) << "\n";
      }
    }
    if (!sigsPath.empty() && !known.empty()) {
      // a known function that vanished from this unit while an unknown function with exactly the same callees and callers appeared is a RENAME:
      // give the function its old name back, so that rules anchored on it still find it (callees / callers are taken through other unknown helpers)
      std::map<std::string, std::pair<std::string, std::string>> want;   // missing known name -> (callees, callers)
      std::ifstream sf(sigsPath);
      std::string ln;
      while (std::getline(sf, ln)) {
        std::vector<std::string> col; size_t p0 = 0;
        for (int k = 0; k < 3; ++k) { size_t t = ln.find('\t', p0); if (t == std::string::npos) break; col.push_back(ln.substr(p0, t - p0)); p0 = t + 1; }
        col.push_back(ln.substr(p0));
        if (col.size() != 4 || col[0] != unitName) continue;
        Function *g = M->getFunction(col[1]);
        if (!g || g->isDeclaration()) want[col[1]] = {col[2], col[3]};
      }
      auto isUnknown = [&](const Function *f) { return !f->isDeclaration() && f->hasLocalLinkage() && !known.count(f->getName().str()); };
      std::function<void(const Function *, bool, std::set<std::string> &, std::set<const Function *> &)> expand =
          [&](const Function *f, bool down, std::set<std::string> &out, std::set<const Function *> &seen) {
            for (const Function *c : (down ? refs[f] : users[f])) {
              if (isUnknown(c)) { if (seen.insert(c).second) expand(c, down, out, seen); }
              else out.insert(c->getName().str());
            }
          };
      std::map<std::string, std::vector<Function *>> cand;
      for (Function &F : *M) if (isUnknown(&F)) {
        std::set<std::string> ce, cr; std::set<const Function *> s1{&F}, s2{&F};
        expand(&F, true, ce, s1); expand(&F, false, cr, s2);
        std::string a = joinNames(ce), b = joinNames(cr);
        for (auto &w : want) if (w.second.first == a && w.second.second == b) cand[w.first].push_back(&F);
      }
      std::map<Function *, int> uses;
      for (auto &c : cand) for (Function *f : c.second) uses[f]++;
      for (auto &c : cand)
        if (c.second.size() == 1 && uses[c.second[0]] == 1) {
          aliased.push_back({c.second[0]->getName().str(), c.first});
          c.second[0]->setName(c.first);
        }
    }
  }
  unsigned nleaves = 0;
  std::vector<std::string> leafnames, foldednames;
  if (mode != "none") {
    if (mode == "leaves") {
      for (Function &F : *M) if (F.hasFnAttribute(Attribute::AlwaysInline)) F.removeFnAttr(Attribute::AlwaysInline);
      SmallPtrSet<const Function *, 32> pure;
      bool changed = true;
      while (changed) {
        changed = false;
        for (Function &F : *M)
          if (!pure.count(&F) && isPureLeaf(F, pure)) { pure.insert(&F); changed = true; }
      }
      for (Function &F : *M) if (pure.count(&F)) {
        F.removeFnAttr(Attribute::NoInline); F.removeFnAttr(Attribute::OptimizeNone);
        F.addFnAttr(Attribute::AlwaysInline); ++nleaves; leafnames.push_back(F.getName().str());
      }
    }
    if (!known.empty())
      for (Function &F : *M)
        if (!F.isDeclaration() && F.hasLocalLinkage() && !F.hasFnAttribute(Attribute::AlwaysInline) && !known.count(F.getName().str())) {
          F.removeFnAttr(Attribute::NoInline); F.removeFnAttr(Attribute::OptimizeNone);
          F.addFnAttr(Attribute::AlwaysInline); foldednames.push_back(F.getName().str());
        }
    for (Function &F : *M)
      if (!F.isDeclaration() && forced.count(F.getName().str())) {
        F.removeFnAttr(Attribute::NoInline); F.removeFnAttr(Attribute::OptimizeNone);
        F.addFnAttr(Attribute::AlwaysInline);
      }
    ModulePassManager MPM;
    std::string pipe = std::string("always-inline,") + fpipe;
    if (auto e = PB.parsePassPipeline(MPM, pipe)) { errs() << toString(std::move(e)) << "\n"; return 2; }
    MPM.run(*M, MAM);
  }
  if (verifyModule(*M, &errs())) { errs() << "module broken after normalisation\n"; return 2; }

  std::error_code ec;
  raw_fd_ostream out(argv[2], ec);
  if (ec) { errs() << ec.message() << "\n"; return 2; }
  Dumper D(*M, out);
  out << "{\"module\":" << jstr(M->getSourceFileName()) << ",\"inline_mode\":" << jstr(mode) << ",\"leaves\":[";
  for (size_t i = 0; i < leafnames.size(); ++i) { if (i) out << ","; out << jstr(leafnames[i]); }
  out << "],\"folded_unknown\":[";
  for (size_t i = 0; i < foldednames.size(); ++i) { if (i) out << ","; out << jstr(foldednames[i]); }
  out << "],\"renamed_back\":[";
  for (size_t i = 0; i < aliased.size(); ++i) { if (i) out << ","; out << "[" << jstr(aliased[i].first) << "," << jstr(aliased[i].second) << "]"; }
  out << "],\n\"functions\":[";
  bool first = true;
  for (const Function &F : *M) {
    if (F.isDeclaration()) continue;
    if (!first) out << ","; first = false;
    out << "\n"; D.dumpFunction(F);
  }
  out << "],\n\"decls\":[";
  first = true;
  for (const Function &F : *M) {
    if (!F.isDeclaration() || F.isIntrinsic()) continue;
    if (!first) out << ","; first = false;
    out << "[" << jstr(F.getName()) << "," << (F.doesNotReturn() ? "true" : "false") << "]";
  }
  out << "],\n\"globals\":[";
  first = true;
  for (const GlobalVariable &G : M->globals()) {
    if (G.getName().startswith("llvm.")) continue;
    if (!first) out << ","; first = false;
    out << "\n {\"name\":" << jstr(G.getName()) << ",\"ty\":" << jstr(tystr(G.getValueType()))
        << ",\"const\":" << (G.isConstant() ? "true" : "false")
        << ",\"size\":" << (G.getValueType()->isSized() ? M->getDataLayout().getTypeAllocSize(G.getValueType()).getFixedSize() : 0);
    if (auto *at = dyn_cast<ArrayType>(G.getValueType())) out << ",\"len\":" << at->getNumElements() << ",\"esize\":" << M->getDataLayout().getTypeAllocSize(at->getElementType()).getFixedSize();
    if (G.hasInitializer()) { out << ",\"init\":"; D.dumpConst(G.getInitializer(), 0); }
    if (G.hasInitializer() && (isa<StructType>(G.getValueType()) || isa<ArrayType>(G.getValueType()))) {
      std::vector<std::pair<uint64_t, std::string>> fl;
      D.flatFuncs(G.getInitializer(), 0, fl, 0);
      if (!fl.empty()) {
        out << ",\"fptrs\":[";
        for (size_t i = 0; i < fl.size(); ++i) { if (i) out << ","; out << "[" << fl[i].first << "," << jstr(fl[i].second) << "]"; }
        out << "]";
      }
      if (auto *st = dyn_cast<StructType>(G.getValueType())) if (st->hasName()) out << ",\"sty\":" << jstr(st->getName());
    }
    out << "}";
  }
  out << "],\n";
  D.dumpTypes();
  out << "}\n";
  out.close();
  return 0;
}
